//! Channel histories (C03, C04, C20): the real customer state machine driven through establish /
//! pay / close with injected faulty merchant replies, stop-and-close probes at every stage, the
//! integer ledger as oracle, and store / restore at every step — every step compared with the
//! model's `Customer` state machine.
use crate::abacus::*;
use crate::dl::{hex_s, Book};
use crate::gen::*;
use crate::kit::*;
use crate::report::{Ctx, Real};
use crate::rng::ScriptedRng;
use crate::session::*;
use crate::wire;
use bls12_381::{G1Affine, Scalar};
use rand::Rng;
use serde_json::json;
use zkabacus_crypto::customer::{ClosingMessage, Inactive, Locked, Ready, Requested, Started};
use zkabacus_crypto::{ClosingSignature, CustomerBalance, MerchantBalance, PayToken, Verification, CLOSE_SCALAR};
use zkchannels_crypto::proofs::verif_hooks;

pub enum Stage {
    Requested(Requested),
    Inactive(Inactive),
    Ready(Ready),
    Started(Started),
    Locked(Locked),
}

impl Stage {
    pub fn bytes(&self) -> Vec<u8> {
        match self {
            Stage::Requested(x) => wire::ser(x),
            Stage::Inactive(x) => wire::ser(x),
            Stage::Ready(x) => wire::ser(x),
            Stage::Started(x) => wire::ser(x),
            Stage::Locked(x) => wire::ser(x),
        }
    }
    pub fn name(&self) -> &'static str {
        match self { Stage::Requested(_) => "requested", Stage::Inactive(_) => "inactive", Stage::Ready(_) => "ready", Stage::Started(_) => "started", Stage::Locked(_) => "locked" }
    }
    /// write out and read back (the restore of C20)
    pub fn restore(&self) -> Result<Stage, String> {
        let b = self.bytes();
        Ok(match self {
            Stage::Requested(_) => Stage::Requested(wire::de(&b)?),
            Stage::Inactive(_) => Stage::Inactive(wire::de(&b)?),
            Stage::Ready(_) => Stage::Ready(wire::de(&b)?),
            Stage::Started(_) => Stage::Started(wire::de(&b)?),
            Stage::Locked(_) => Stage::Locked(wire::de(&b)?),
        })
    }
    /// write out and read back with a self-describing format (serde_json): the derives promise this for every format
    pub fn restore_json(&self) -> Result<Vec<u8>, String> {
        fn rt<T: serde::Serialize + serde::de::DeserializeOwned>(x: &T) -> Result<Vec<u8>, String> {
            wire::json_roundtrip_all(x)
        }
        match self {
            Stage::Requested(x) => rt(x),
            Stage::Inactive(x) => rt(x),
            Stage::Ready(x) => rt(x),
            Stage::Started(x) => rt(x),
            Stage::Locked(x) => rt(x),
        }
    }
    pub fn balances(&self) -> (u64, u64) {
        match self {
            Stage::Requested(x) => (x.customer_balance().into_inner(), x.merchant_balance().into_inner()),
            Stage::Inactive(x) => (x.customer_balance().into_inner(), x.merchant_balance().into_inner()),
            Stage::Ready(x) => (x.customer_balance().into_inner(), x.merchant_balance().into_inner()),
            Stage::Started(x) => (x.customer_balance().into_inner(), x.merchant_balance().into_inner()),
            Stage::Locked(x) => (x.customer_balance().into_inner(), x.merchant_balance().into_inner()),
        }
    }
}

fn u64_at(b: &[u8], o: usize) -> u64 {
    let mut a = [0u8; 8];
    a.copy_from_slice(&b[o..o + 8]);
    u64::from_le_bytes(a)
}

/// the seven model fields of a serialized `State` (+ the same as `Real`s)
fn state_fields(b: &[u8]) -> Option<(String, Vec<Real>)> {
    let m = state_message(b)?; // cid nonce lock cb mb as scalars
    let secret = s_at(b, 96)?;
    let (idx, mb, cb) = (b[128], u64_at(b, 129), u64_at(b, 137));
    Some((
        format!("{} {} {} {} {:x} {:x} {:x}", hex_s(&m[0]), hex_s(&m[1]), hex_s(&m[2]), hex_s(&secret), idx, cb, mb),
        vec![Real::S(m[0]), Real::S(m[1]), Real::S(m[2]), Real::S(secret), Real::N(idx as u128), Real::N(cb as u128), Real::N(mb as u128)],
    ))
}

fn sig_dlogs(book: &Book, b: &[u8]) -> Option<String> {
    Some(format!("{} {}", hex_s(&book.dlog_g1_bytes(&b[..48])?), hex_s(&book.dlog_g1_bytes(&b[48..96])?)))
}
fn sig_reals(b: &[u8]) -> Option<Vec<Real>> {
    let g = |x: &[u8]| -> Option<Real> { let mut a = [0u8; 48]; a.copy_from_slice(x); Option::<G1Affine>::from(G1Affine::from_compressed(&a)).map(Real::G1) };
    Some(vec![g(&b[..48])?, g(&b[48..96])?])
}

/// request fields of a customer stage for the model (`None` when a stored signature has an unknown dlog)
pub fn stage_fields(book: &Book, s: &Stage) -> Option<String> {
    let b = s.bytes();
    Some(match s {
        Stage::Requested(_) => format!("requested {} {} {}", state_fields(&b[..145])?.0, hex_s(&s_at(&b, 145)?), hex_s(&s_at(&b, 177)?)),
        Stage::Inactive(_) => format!("inactive {} {} {}", state_fields(&b[..145])?.0, hex_s(&s_at(&b, 145)?), sig_dlogs(book, &b[177..273])?),
        Stage::Ready(_) => format!("ready {} {} {}", state_fields(&b[..145])?.0, sig_dlogs(book, &b[145..241])?, sig_dlogs(book, &b[241..337])?),
        Stage::Started(_) => format!("started {} {} {} {} {} {}", state_fields(&b[..145])?.0, state_fields(&b[145..290])?.0,
            hex_s(&s_at(&b, 290)?), hex_s(&s_at(&b, 322)?), hex_s(&s_at(&b, 354)?), sig_dlogs(book, &b[386..482])?),
        Stage::Locked(_) => format!("locked {} {} {}", state_fields(&b[..145])?.0, hex_s(&s_at(&b, 145)?), sig_dlogs(book, &b[177..273])?),
    })
}

/// the real stage as the token sequence the model prints for a customer
pub fn stage_reals(s: &Stage) -> Option<Vec<Real>> {
    let b = s.bytes();
    let mut v = vec![Real::V(s.name().to_string())];
    match s {
        Stage::Requested(_) => { v.extend(state_fields(&b[..145])?.1); v.push(Real::S(s_at(&b, 145)?)); v.push(Real::S(s_at(&b, 177)?)); }
        Stage::Inactive(_) => { v.extend(state_fields(&b[..145])?.1); v.push(Real::S(s_at(&b, 145)?)); v.extend(sig_reals(&b[177..273])?); }
        Stage::Ready(_) => { v.extend(state_fields(&b[..145])?.1); v.extend(sig_reals(&b[145..241])?); v.extend(sig_reals(&b[241..337])?); }
        Stage::Started(_) => {
            v.extend(state_fields(&b[..145])?.1); v.extend(state_fields(&b[145..290])?.1);
            v.push(Real::S(s_at(&b, 290)?)); v.push(Real::S(s_at(&b, 322)?)); v.push(Real::S(s_at(&b, 354)?));
            v.extend(sig_reals(&b[386..482])?);
        }
        Stage::Locked(_) => { v.extend(state_fields(&b[..145])?.1); v.push(Real::S(s_at(&b, 145)?)); v.extend(sig_reals(&b[177..273])?); }
    }
    Some(v)
}

/// a merchant reply: real 96 bytes and its discrete logs
#[derive(Clone)]
pub struct ReplyD {
    pub what: &'static str,
    pub s1: Scalar,
    pub s2: Scalar,
    pub bytes: Vec<u8>,
    /// the (identity, identity) reply of a merchant whose blind-signing randomiser came out zero: it has no
    /// wire encoding (the signature decoder refuses it) and is produced in memory through the merchant API
    pub is_zero: bool,
}

/// a reply as an in-memory object
pub enum Obj {
    Closing(ClosingSignature),
    Token(PayToken),
}
type ZeroGen<'z> = Option<&'z dyn Fn() -> Option<Obj>>;
type Apply = dyn Fn(Stage, &[u8], Option<Obj>, &World) -> (Stage, bool, Option<Vec<u8>>);

impl ReplyD {
    pub fn from_dlogs(book: &Book, what: &'static str, s1: Scalar, s2: Scalar) -> Option<ReplyD> {
        if s1 == Scalar::zero() { return None; }
        Some(ReplyD { what, s1, s2, bytes: wire::cat(vec![wire::enc_g1(book, &s1), wire::enc_g1(book, &s2)]), is_zero: false })
    }
}

pub struct Hist<'a> {
    pub w: &'a World,
    pub w2: &'a World,
    pub a: Agreed,
    pub stage: Option<Stage>,
    /// the ideal ledger (customer, merchant)
    pub ledger: (i128, i128),
    pub disclosed: Vec<[u8; 32]>,
    pub faults_max: usize,
    pub restore: bool,
    /// replies recorded in this and other sessions, for replay faults
    pub recorded: Vec<ReplyD>,
    pub failed: bool,
}

fn blind_sign_d(w: &World, u: &Scalar, com: &Scalar) -> (Scalar, Scalar) {
    (u * w.kpd.pk.g1, u * (w.kpd.x1 + com))
}

impl<'a> Hist<'a> {
    /// the fault alphabet for a reply expected to be the blind signature on commitment `good`
    /// (`other` = the commitment the *other* message type would sign)
    fn faults(&self, ctx: &mut Ctx, good: &Scalar, other: &Scalar) -> Vec<ReplyD> {
        let book = ctx.book.clone();
        let mut v = vec![];
        let u = nonzero(&mut ctx.prng);
        let mut push = |what: &'static str, d: (Scalar, Scalar)| { if let Some(r) = ReplyD::from_dlogs(&book, what, d.0, d.1) { v.push(r); } };
        push("garbage", (nonzero(&mut ctx.prng), rand_scalar(&mut ctx.prng)));
        for i in 0..5 {
            // signature on a state with one slot altered (channel id, nonce / close tag, lock, balances)
            push(["signature-on-altered-channel-id", "signature-on-altered-tag-slot", "signature-on-altered-lock", "signature-on-altered-customer-balance", "signature-on-altered-merchant-balance"][i],
                blind_sign_d(self.w, &u, &(good + self.w.kpd.pk.y1s[i] * Scalar::from(1 + ctx.prng.gen_range(0..3u64)))));
        }
        push("other-message-type", blind_sign_d(self.w, &u, other));
        push("signature-under-another-key", blind_sign_d(self.w2, &u, good));
        push("right-commitment-wrong-blinding", blind_sign_d(self.w, &u, &(good + self.w.kpd.pk.g1)));
        if !self.recorded.is_empty() {
            let r = &self.recorded[ctx.prng.gen_range(0..self.recorded.len())];
            v.push(ReplyD { what: "replayed-from-another-session", ..r.clone() });
        }
        v
    }

    /// compare one reply step with the model; `before` = fields of the stage before the step
    fn model_reply(&self, ctx: &mut Ctx, op: &str, before: &str, reply: &ReplyD, real_class: &str, after: &Stage, lockmsg: Option<Vec<Real>>) {
        let mut reals = vec![Real::V(real_class.to_string())];
        if let Some(l) = lockmsg { reals.extend(l); }
        match stage_reals(after) { Some(r) => reals.extend(r), None => { ctx.broken("cannot parse the customer state"); return; } }
        let line = format!("cust {} {} {} | {} | {} {}", op, pk_args(&self.w.kpd.pk), hex_s(&CLOSE_SCALAR), before, hex_s(&reply.s1), hex_s(&reply.s2));
        let _ = ctx.expect(&line, &reals);
    }

    /// Present 0..faults_max faulty replies, then the honest one, through `apply` (one customer method).
    /// `apply` consumes a stage and a reply and returns (new stage, accepted?, lock message bytes).
    fn reply_step(
        &mut self,
        ctx: &mut Ctx,
        op: &'static str,
        honest: ReplyD,
        good_com: Scalar,
        other_com: Scalar,
        apply: &Apply,
        zero: ZeroGen,
    ) -> Option<Option<Vec<u8>>> {
        let book = ctx.book.clone();
        let mut replies: Vec<ReplyD> = vec![];
        let nf = if self.faults_max == 0 { 0 } else { ctx.prng.gen_range(0..=self.faults_max) };
        let mut pool = self.faults(ctx, &good_com, &other_com);
        for _ in 0..nf {
            if pool.is_empty() { break; }
            let k = ctx.prng.gen_range(0..pool.len());
            replies.push(pool.remove(k));
        }
        if self.faults_max > 0 && zero.is_some() && ctx.prng.gen_range(0..3) == 0 {
            let at = ctx.prng.gen_range(0..=replies.len());
            replies.insert(at, ReplyD { what: "merchant-drew-zero-randomiser", s1: Scalar::zero(), s2: Scalar::zero(), bytes: vec![], is_zero: true });
        }
        replies.push(honest);
        let n = replies.len();
        for (k, r) in replies.into_iter().enumerate() {
            let is_honest = k + 1 == n;
            let stage = self.stage.take()?;
            let before_bytes = stage.bytes();
            let before = match stage_fields(&book, &stage) { Some(f) => f, None => { ctx.broken("customer state holds a signature with unknown discrete logs"); self.failed = true; return None; } };
            // C20: the restored state must behave identically on the same reply
            let restored = if self.restore { match stage.restore() { Ok(s) => Some(s), Err(e) => { ctx.violation(&format!("customer state ({}) cannot be restored from its own encoding: {}", stage.name(), e), json!({"class": "restore-fails", "stage": stage.name(), "bytes": hex::encode(&before_bytes)})); None } } } else { None };
            let obj = |ctx: &mut Ctx| -> Option<Option<Obj>> { if r.is_zero { match zero.and_then(|f| f()) { Some(o) => Some(Some(o)), None => { ctx.broken("the merchant API did not produce a reply under a zero randomiser"); None } } } else { Some(None) } };
            let o1 = match obj(ctx) { Some(o) => o, None => { self.stage = Some(stage); continue; } };
            if self.restore {
                ctx.evals += 1;
                match stage.restore_json() {
                    Ok(b) if b == before_bytes => ctx.count("restore:json:same"),
                    Ok(_) => ctx.violation(&format!("customer state ({}) written as JSON and read back differs from the original", stage.name()), json!({"class": "json-restore-differs", "stage": stage.name()})),
                    Err(e) => ctx.violation(&format!("customer state ({}) cannot be restored from its own JSON form: {}", stage.name(), e), json!({"class": "json-restore-fails", "stage": stage.name(), "error": e})),
                }
            }
            let (after, accepted, lockmsg) = apply(stage, &r.bytes, o1, self.w);
            if let Some(rs) = restored {
                let o2 = match obj(ctx) { Some(o) => o, None => None };
                let (after2, accepted2, lockmsg2) = apply(rs, &r.bytes, o2, self.w);
                ctx.count(&format!("restore:{}:{}", op, if accepted2 == accepted && after2.bytes() == after.bytes() && lockmsg2 == lockmsg { "same" } else { "DIFFERENT" }));
                if accepted2 != accepted || after2.bytes() != after.bytes() || lockmsg2 != lockmsg {
                    ctx.violation(&format!("a restored customer ({}) reacts differently to a merchant reply ({}) than the original", op, r.what), json!({"class": "restored-reacts-differently", "op": op, "reply": r.what}));
                }
            }
            let class = if accepted { if lockmsg.is_some() { "accepted-lock" } else { "accepted" } } else { "refused" };
            let lock_reals = lockmsg.as_ref().map(|l| vec![Real::S(s_at(l, 0).unwrap()), Real::S(s_at(l, 32).unwrap()), Real::N(l[64] as u128), Real::S(s_at(l, 65).unwrap())]);
            self.model_reply(ctx, op, &before, &r, class, &after, lock_reals);
            ctx.count(&format!("reply:{}:{}:{}", op, r.what, class));
            if !is_honest {
                if accepted {
                    ctx.violation(&format!("the customer accepted a faulty merchant reply ({}) in {}", r.what, op), json!({"class": format!("faulty-reply-accepted-{}", r.what), "op": op, "reply_bytes": hex::encode(&r.bytes), "state_before": hex::encode(&before_bytes)}));
                    self.failed = true;
                    self.stage = Some(after);
                    return None;
                }
                if after.bytes() != before_bytes {
                    ctx.violation(&format!("a refused merchant reply ({}) changed the customer state in {}", r.what, op), json!({"class": "refused-reply-changed-state", "op": op, "reply": r.what}));
                }
                if lockmsg.is_some() {
                    ctx.violation("a revocation secret was released for a refused reply", json!({"class": "secret-released-on-refusal", "op": op}));
                }
                self.stage = Some(after);
            } else {
                if !accepted {
                    ctx.violation(&format!("the customer refused the honest merchant reply in {} (after {} refused faulty replies)", op, n - 1), json!({"class": "honest-reply-refused", "op": op, "faults_before": n - 1}));
                    self.failed = true;
                    self.stage = Some(after);
                    return None;
                }
                self.stage = Some(after);
                return Some(lockmsg);
            }
        }
        None
    }

    /// stop-and-close probe on a copy of the current stage
    pub fn close_probe(&mut self, ctx: &mut Ctx, expect_balances: (i128, i128)) {
        let stage = match &self.stage { Some(s) => s, None => return };
        let copy = match stage.restore() { Ok(s) => s, Err(_) => return };
        let zero = ctx.prng.gen_range(0..40) == 0;
        let out = match close_checked(ctx, self.w, copy, zero) { Some(o) => o, None => return };
        let (name, mb) = (out.name, &out.bytes);
        let (cb_v, mb_v) = (u64_at(mb, 168), u64_at(mb, 160));
        if (cb_v as i128, mb_v as i128) != expect_balances {
            ctx.violation(&format!("closing message at stage {} carries balances ({}, {}), the ledger says ({}, {})", name, cb_v, mb_v, expect_balances.0, expect_balances.1), json!({"class": "closing-balances", "stage": name}));
        }
        if mb[96..128] != self.a.cid.to_bytes() {
            ctx.violation("closing message carries another channel id", json!({"class": "closing-channel-id", "stage": name}));
        }
        let mut lock = [0u8; 32]; lock.copy_from_slice(&mb[128..160]);
        if self.disclosed.contains(&lock) {
            ctx.violation(&format!("closing message at stage {} uses a revocation lock that was already disclosed", name), json!({"class": "closing-lock-disclosed", "stage": name}));
        }
    }
}

pub struct CloseOut {
    pub name: &'static str,
    /// sig 96 | cid 32 | lock 32 | mb 8 | cb 8
    pub bytes: Vec<u8>,
    pub r: Scalar,
    pub ok: bool,
}

/// `close()` of a stage under the scripted RNG: the closing message is compared with the model's
/// (stored signature re-randomised by the drawn `r`, stage-specific state) and given to the real
/// merchant's close check.
pub fn close_checked(ctx: &mut Ctx, w: &World, stage: Stage, zero: bool) -> Option<CloseOut> {
    let book = ctx.book.clone();
    let fields = stage_fields(&book, &stage)?;
    let mut rng = ScriptedRng::new(ctx.prng.gen(), book.clone());
    if zero { rng.force_scalars(&[Scalar::zero()]); }
    let name = stage.name();
    let cm: ClosingMessage = match stage {
        Stage::Requested(_) => return None,
        Stage::Inactive(x) => x.close(&mut rng),
        Stage::Ready(x) => x.close(&mut rng),
        Stage::Started(x) => x.close(&mut rng),
        Stage::Locked(x) => x.close(&mut rng),
    };
    // a close that draws no re-randomiser breaks the correspondence (reported), but the message it produced is still
    // examined by the callers (merchant-side check here, atom scan in C14, ledger in C03 / C04): the failing input, if
    // there is one, is in the message, not in the draw count
    let drawn = rng.scalars_in_log().first().copied();
    if drawn.is_none() { ctx.broken("close() drew no re-randomiser"); }
    let r = drawn.unwrap_or(Scalar::one());
    let mb = wire::ser(&cm);
    let (cb_v, mb_v) = (u64_at(&mb, 168), u64_at(&mb, 160));
    let mut cidb = [0u8; 32]; cidb.copy_from_slice(&mb[96..128]);
    let cid_s = cid_scalar(&cidb);
    let (sig, cs) = cm.into_parts();
    let ok = matches!(w.merchant.check_close_signature(sig, &cs), Verification::Verified);
    if drawn.is_some() {
        let mut reals = vec![Real::V("closing".into())];
        if r == Scalar::zero() {
            reals.extend(vec![Real::G1(G1Affine::identity()), Real::G1(G1Affine::identity())]);
        } else {
            reals.extend(sig_reals(&mb[..96])?);
        }
        reals.extend(vec![Real::S(cid_s), Real::S(s_at(&mb, 128).unwrap()), Real::N(cb_v as u128), Real::N(mb_v as u128), Real::B(ok)]);
        let line = format!("cust close {} {} | {} | {}", pk_args(&w.kpd.pk), hex_s(&CLOSE_SCALAR), fields, hex_s(&r));
        let _ = ctx.expect(&line, &reals);
    }
    ctx.count(&format!("close:{}:{}{}", name, ok, if r == Scalar::zero() { ":zero-randomiser" } else { "" }));
    if r != Scalar::zero() && !ok {
        ctx.violation(&format!("the merchant's close check rejects the customer's closing message at stage {}", name), json!({"class": "close-rejected", "stage": name}));
    }
    Some(CloseOut { name, bytes: mb, r, ok })
}

fn closing_of(reply: &[u8], obj: Option<Obj>) -> ClosingSignature {
    match obj { Some(Obj::Closing(c)) => c, _ => wire::de::<ClosingSignature>(reply).expect("reply decodes") }
}
fn token_of(reply: &[u8], obj: Option<Obj>) -> PayToken {
    match obj { Some(Obj::Token(t)) => t, _ => wire::de::<PayToken>(reply).expect("reply decodes") }
}
fn apply_complete(s: Stage, reply: &[u8], obj: Option<Obj>, w: &World) -> (Stage, bool, Option<Vec<u8>>) {
    match s {
        Stage::Requested(x) => match x.complete(closing_of(reply, obj), &w.customer) { Ok(i) => (Stage::Inactive(i), true, None), Err(x) => (Stage::Requested(x), false, None) },
        o => (o, false, None),
    }
}
fn apply_activate(s: Stage, reply: &[u8], obj: Option<Obj>, w: &World) -> (Stage, bool, Option<Vec<u8>>) {
    match s {
        Stage::Inactive(x) => match x.activate(token_of(reply, obj), &w.customer) { Ok(i) => (Stage::Ready(i), true, None), Err(x) => (Stage::Inactive(x), false, None) },
        o => (o, false, None),
    }
}
fn apply_lock(s: Stage, reply: &[u8], obj: Option<Obj>, w: &World) -> (Stage, bool, Option<Vec<u8>>) {
    match s {
        Stage::Started(x) => match x.lock(closing_of(reply, obj), &w.customer) {
            Ok((l, m)) => { let mut b = wire::ser(&m.revocation_pair); b.extend(wire::ser(&m.revocation_lock_blinding_factor)); (Stage::Locked(l), true, Some(b)) }
            Err(x) => (Stage::Started(x), false, None),
        },
        o => (o, false, None),
    }
}
fn apply_unlock(s: Stage, reply: &[u8], obj: Option<Obj>, w: &World) -> (Stage, bool, Option<Vec<u8>>) {
    match s {
        Stage::Locked(x) => match x.unlock(token_of(reply, obj), &w.customer) { Ok(i) => (Stage::Ready(i), true, None), Err(x) => (Stage::Locked(x), false, None) },
        o => (o, false, None),
    }
}

/// amounts relative to the current balances: 0, ±1, ±balance, ±(balance+1), ±(2^63-1), random
pub fn boundary_amount(ctx: &mut Ctx, cb: i128, mb: i128) -> i64 {
    let max = i64::MAX as i128;
    let cands: Vec<i128> = vec![0, 1, -1, cb, -cb, mb, -mb, cb + 1, -(mb + 1), max, -max, max - mb, -(max - cb), max - mb + 1, -(max - cb + 1),
        ctx.prng.gen_range(0..=cb.max(1)), -ctx.prng.gen_range(0..=mb.max(1)), (ctx.prng.gen::<i64>() >> ctx.prng.gen_range(0..63)) as i128];
    let c = cands[ctx.prng.gen_range(0..cands.len())];
    c.clamp(i64::MIN as i128 + 1, max) as i64
}

pub struct HistCfg {
    /// the whole capacity (2^63-1) is paid to the merchant and refunded alternately
    pub ping_pong: bool,
    /// occasionally force the first scalar a new state draws (its nonce) to the close tag — `Nonce::new`
    /// must redraw, so that every state the customer ever holds can be stored and read back
    pub close_tag_draws: bool,
    pub faults_max: usize,
    pub restore: bool,
    pub payments: usize,
    pub boundary_balances: bool,
    pub valid_bias: bool,
}

/// one complete history; returns false when it had to stop early
pub fn run_history(ctx: &mut Ctx, w: &World, w2: &World, cfg: &HistCfg) -> bool {
    let book = ctx.book.clone();
    let mut a = Agreed::random(ctx);
    if cfg.boundary_balances {
        let lat = [0u64, 1, 2, 1 << 31, 1 << 32, 1 << 62, i64::MAX as u64 - 1, i64::MAX as u64];
        a.cb = lat[ctx.prng.gen_range(0..lat.len())];
        a.mb = lat[ctx.prng.gen_range(0..lat.len())];
    }
    if cfg.ping_pong {
        let all = i64::MAX as u64;
        if ctx.prng.gen_range(0..2) == 0 { a.cb = all; a.mb = 0; } else { a.cb = 0; a.mb = all; }
    }
    // a session with another merchant / channel supplies replies for replay faults
    let mut recorded: Vec<ReplyD> = vec![];
    {
        let ao = Agreed::random(ctx);
        if let Some(run) = establish_customer(ctx, w2, &ao) {
            if let Some(o) = initialize_check(ctx, w2, &ao, &run.d, Some(true), "honest") {
                if let (Some((cl, _)), Some(u)) = (o.accepted, o.u) {
                    let d = blind_sign_d(w2, &u, &run.d.cl.c);
                    if book.check_g1(&{ let b = wire::ser(&cl); let mut x = [0u8; 48]; x.copy_from_slice(&b[..48]); G1Affine::from_compressed(&x).unwrap() }, d.0) {
                        if let Some(r) = ReplyD::from_dlogs(&book, "replayed-from-another-session", d.0, d.1) { recorded.push(r); }
                    }
                }
            }
        }
    }
    let mut est_zero = false;
    if cfg.close_tag_draws {
        match ctx.prng.gen_range(0..6) {
            0 => { ctx.forced_next = vec![CLOSE_SCALAR]; ctx.count("degenerate:close-tag-drawn-at-establish"); }
            1 | 2 => {
                // one scalar draw of Requested::new is zero (a zero blinding factor is a legal, storable value)
                let k = ctx.prng.gen_range(0..16);
                let mut f: Vec<Scalar> = (0..k).map(|_| nonzero(&mut ctx.prng)).collect();
                f.push(Scalar::zero());
                ctx.forced_next = f;
                est_zero = true;
                ctx.count("degenerate:zero-draw-at-establish");
            }
            _ => {}
        }
    }
    // a revocation secret whose index loop runs long (first canonical SHA3(secret || index) at index 30..38; found by a
    // one-off search, see revsecrets.rs) as the second scalar draw (the nonce is drawn first): a perfectly ordinary
    // secret, the run must complete as any other
    let mut long_loop: Option<u8> = None;
    if ctx.forced_next.is_empty() && ctx.prng.gen_range(0..5) == 0 {
        if let Some((sec, i)) = crate::revsecrets::next_long_loop(ctx) {
            ctx.forced_next = vec![nonzero(&mut ctx.prng), sec];
            long_loop = Some(i);
        }
    }
    let run = match establish_customer(ctx, w, &a) { Some(r) => r, None => return false };
    if let Some(i) = long_loop {
        let landed = wire::ser(&run.requested)[128] == i;
        ctx.count(&format!("long-index-loop-secret-at-establish:{}", if landed { "in-the-state" } else { "not-the-revocation-secret-draw" }));
    }
    let mut h = Hist { w, w2, a: a.clone(), stage: None, ledger: (a.cb as i128, a.mb as i128), disclosed: vec![], faults_max: cfg.faults_max, restore: cfg.restore, recorded, failed: false };
    let out = match initialize_check(ctx, w, &a, &run.d, if est_zero { None } else { Some(true) }, if est_zero { "degenerate-draw" } else { "honest" }) { Some(o) => o, None => return false };
    let (_closing, vbs) = match out.accepted { Some(x) => x, None => return false };
    let u = match out.u { Some(u) => u, None => return false };
    let (st_com, cl_com) = (run.d.st.c, run.d.cl.c);
    h.stage = Some(Stage::Requested(run.requested));
    let d = blind_sign_d(w, &u, &cl_com);
    let honest = match ReplyD::from_dlogs(&book, "honest", d.0, d.1) { Some(r) => r, None => return false };
    let est_d = run.d;
    let merchant_init = |zero: bool| -> Option<(ClosingSignature, zkabacus_crypto::VerifiedBlindedState)> {
        let mut rng = ScriptedRng::new(7, book.clone());
        if zero { rng.force_scalars(&[Scalar::zero()]); }
        let proof = est_d.real(&book).ok()?;
        let r = w.merchant.initialize(&mut rng, &a.cid, CustomerBalance::try_new(a.cb).ok()?, MerchantBalance::try_new(a.mb).ok()?, proof, &a.context());
        let _ = verif_hooks::drain_challenges();
        r
    };
    let zero_complete = || -> Option<Obj> { merchant_init(true).map(|(c, _)| Obj::Closing(c)) };
    let zero_activate = || -> Option<Obj> {
        let (_, vbs) = merchant_init(false)?;
        let mut rng = ScriptedRng::new(7, book.clone());
        rng.force_scalars(&[Scalar::zero()]);
        Some(Obj::Token(w.merchant.activate(&mut rng, vbs)))
    };
    if h.reply_step(ctx, "complete", honest.clone(), cl_com, st_com, &apply_complete, Some(&zero_complete)).is_none() { return false; }
    h.recorded.push(ReplyD { what: "replayed-from-another-session", ..honest });
    h.close_probe(ctx, h.ledger);
    let mut rng = ScriptedRng::new(ctx.prng.gen(), book.clone());
    let _tok = w.merchant.activate(&mut rng, vbs);
    let u2 = match rng.scalars_in_log().first() { Some(u) => *u, None => return false };
    let d = blind_sign_d(w, &u2, &st_com);
    let honest = match ReplyD::from_dlogs(&book, "honest", d.0, d.1) { Some(r) => r, None => return false };
    if h.reply_step(ctx, "activate", honest, st_com, cl_com, &apply_activate, Some(&zero_activate)).is_none() { return false; }
    h.close_probe(ctx, h.ledger);
    // payments
    let mut zero_draw_used = est_zero;
    for _ in 0..cfg.payments {
        let (cb, mb) = h.ledger;
        let amount = if cfg.ping_pong { if cb > 0 { cb as i64 } else { -(mb as i64) } } else if cfg.valid_bias && ctx.prng.gen_range(0..3) != 0 { crate::props::c02::valid_amount(ctx, cb as u64, mb as u64) } else { boundary_amount(ctx, cb, mb) };
        let (ncb, nmb) = (cb - amount as i128, mb + amount as i128);
        let max = i64::MAX as i128;
        let expect_err: Option<&str> = if ncb < 0 { Some("insufficient-funds") } else if ncb > max { Some("amount-too-large") } else if nmb < 0 { Some("insufficient-funds") } else if nmb > max { Some("amount-too-large") } else { None };
        let ready = match h.stage.take() { Some(Stage::Ready(r)) => r, _ => return false };
        let before_bytes = wire::ser(&ready);
        let before_fields = match stage_fields(&book, &Stage::Ready(wire::de(&before_bytes).unwrap())) { Some(f) => f, None => return false };
        // C20: the restored customer must emit a byte-identical start message under the same randomness
        let seed: u64 = ctx.prng.gen();
        if cfg.restore {
            if let Ok(r2) = wire::de::<Ready>(&before_bytes) {
                let mut rng_a = ScriptedRng::new(seed, book.clone());
                let mut rng_b = ScriptedRng::new(seed, book.clone());
                let orig: Ready = wire::de(&before_bytes).unwrap();
                let ra = orig.start(&mut rng_a, amount_of(amount), &a.context(), &w.customer);
                let rb = r2.start(&mut rng_b, amount_of(amount), &a.context(), &w.customer);
                let same = match (&ra, &rb) {
                    (Ok((sa, ma)), Ok((sb, mb_))) => wire::ser(sa) == wire::ser(sb) && wire::ser(&ma.nonce) == wire::ser(&mb_.nonce) && wire::ser(&ma.pay_proof) == wire::ser(&mb_.pay_proof),
                    (Err((xa, ea)), Err((xb, eb))) => wire::ser(xa) == wire::ser(xb) && format!("{:?}", ea) == format!("{:?}", eb),
                    _ => false,
                };
                ctx.evals += 1;
                ctx.count(&format!("restore:start:{}", if same { "same" } else { "DIFFERENT" }));
                if !same {
                    ctx.violation("a restored Ready customer emits a different start message / outcome than the original under the same randomness", json!({"class": "restored-start-differs", "amount": amount}));
                }
            } else {
                ctx.violation("a Ready customer state cannot be restored from its own encoding", json!({"class": "restore-fails", "stage": "ready", "bytes": hex::encode(&before_bytes)}));
            }
        }
        let mut degenerate = false;
        if cfg.close_tag_draws {
            match ctx.prng.gen_range(0..6) {
                0 | 1 => { ctx.forced_next = vec![CLOSE_SCALAR]; ctx.count("degenerate:close-tag-drawn-at-start"); }
                // at most one zero draw per history: two zero draws at the revocation-secret position would give two
                // states the same (zero) secret and hence the same lock — not an event the statement covers
                2 | 3 if !zero_draw_used => {
                    zero_draw_used = true;
                    // one scalar draw of Ready::start is zero (position uniform over the ~95 draws)
                    let k = ctx.prng.gen_range(0..100);
                    let mut f: Vec<Scalar> = (0..k).map(|_| nonzero(&mut ctx.prng)).collect();
                    f.push(Scalar::zero());
                    ctx.forced_next = f;
                    degenerate = true;
                    ctx.count("degenerate:zero-draw-at-start");
                }
                _ => {}
            }
        }
        if ctx.forced_next.is_empty() && ctx.prng.gen_range(0..5) == 0 {
            if let Some((sec, _)) = crate::revsecrets::next_long_loop(ctx) {
                ctx.forced_next = vec![nonzero(&mut ctx.prng), sec];
                ctx.count("long-index-loop-secret-at-start");
            }
        }
        match pay_start(ctx, w, &a, ready, amount) {
            StartOutcome::Refused(r, e) => {
                let got = match e { zkabacus_crypto::Error::InsufficientFunds => "insufficient-funds", zkabacus_crypto::Error::AmountTooLarge(_) => "amount-too-large" };
                ctx.count(&format!("start:refused:{}", got));
                let line = format!("cust start {} {} | {} | {:x} 1 1 1 0 1 1 1", pk_args(&w.kpd.pk), hex_s(&CLOSE_SCALAR), before_fields, amount as u64);
                let mut reals = match &e { zkabacus_crypto::Error::InsufficientFunds => vec![Real::V("insufficient-funds".into())], zkabacus_crypto::Error::AmountTooLarge(v) => vec![Real::V("amount-too-large".into()), Real::N(*v as u128)] };
                let st = Stage::Ready(r);
                reals.extend(stage_reals(&st).unwrap_or_default());
                let _ = ctx.expect(&line, &reals);
                if expect_err != Some(got) {
                    ctx.violation(&format!("payment of {} on balances ({}, {}) was refused with {} — the ledger says {}", amount, cb, mb, got, expect_err.unwrap_or("it stays in range")), json!({"class": "payment-refused-wrongly", "cb": cb.to_string(), "mb": mb.to_string(), "amount": amount}));
                }
                if st.bytes() != before_bytes {
                    ctx.violation("a refused payment changed the customer state", json!({"class": "refused-payment-changed-state"}));
                }
                h.stage = Some(st);
                h.close_probe(ctx, h.ledger);
                continue;
            }
            StartOutcome::Broken => return false,
            StartOutcome::Started(run) => {
                let run = *run;
                ctx.count("start:ok");
                if let Some(e) = expect_err {
                    ctx.violation(&format!("payment of {} on balances ({}, {}) was started — the ledger says {}", amount, cb, mb, e), json!({"class": "out-of-range-payment-started", "amount": amount}));
                    return false;
                }
                // model: start with the recovered fresh values
                let sb = wire::ser(&run.started);
                let line = format!("cust start {} {} | {} | {:x} {} {} {} {:x} {} {} {}", pk_args(&w.kpd.pk), hex_s(&CLOSE_SCALAR), before_fields, amount as u64,
                    hex_s(&run.new_ms[1]), hex_s(&run.new_ms[2]), hex_s(&s_at(&sb, 96).unwrap()), sb[128], hex_s(&run.bf_rl), hex_s(&run.bf_tok), hex_s(&run.bf_close));
                let st = Stage::Started(run.started);
                let mut reals = vec![Real::V("ok".into()), Real::V("started".into())];
                reals.extend(stage_reals(&st).unwrap_or_default());
                let _ = ctx.expect(&line, &reals);
                h.stage = Some(st);
                // while only started the customer closes on the old balances
                h.close_probe(ctx, h.ledger);
                let out = match allow_check(ctx, w, &run.nonce_s, amount, &a.ctx_bytes, &run.d, if degenerate { None } else { Some(true) }, if degenerate { "degenerate-draw" } else { "honest" }) { Some(o) => o, None => return false };
                let (unrevoked, _closing) = match out.accepted { Some(x) => x, None => return false };
                let u = match out.u { Some(u) => u, None => return false };
                let dd = blind_sign_d(w, &u, &run.d.cl.c);
                let honest = match ReplyD::from_dlogs(&book, "honest", dd.0, dd.1) { Some(r) => r, None => return false };
                let (run_d, run_nonce_s) = (&run.d, run.nonce_s);
                let merchant_allow = |zero: bool| -> Option<(zkabacus_crypto::merchant::Unrevoked, ClosingSignature)> {
                    let mut rng = ScriptedRng::new(7, book.clone());
                    if zero { rng.force_scalars(&[Scalar::zero()]); }
                    let proof = run_d.real(&book).ok()?;
                    let nonce: zkabacus_crypto::Nonce = wire::de(&wire::enc_s(&run_nonce_s)).ok()?;
                    let r = w.merchant.allow_payment(&mut rng, amount_of(amount), &nonce, proof, &a.context());
                    let _ = verif_hooks::drain_challenges();
                    r
                };
                let zero_lock = || -> Option<Obj> { merchant_allow(true).map(|(_, c)| Obj::Closing(c)) };
                let lm = match h.reply_step(ctx, "lock", honest.clone(), run.d.cl.c, run.d.st.c, &apply_lock, Some(&zero_lock)) { Some(Some(l)) => l, Some(None) => { ctx.violation("lock accepted without a lock message", json!({"class": "lock-without-message"})); return false; } None => return false };
                h.recorded.push(ReplyD { what: "replayed-from-another-session", ..honest });
                // the lock message reveals exactly the old state's pair
                let mut lk = [0u8; 32]; lk.copy_from_slice(&lm[..32]);
                if s_at(&lm, 0) != Some(run.old_ms[2]) {
                    ctx.violation("the lock message does not reveal the old state's revocation lock", json!({"class": "lock-message-wrong-pair"}));
                }
                h.disclosed.push(lk);
                h.ledger = (ncb, nmb);
                h.close_probe(ctx, h.ledger);
                // merchant completes the payment
                let pair: zkabacus_crypto::revlock::RevocationPair = wire::de(&lm[..65]).unwrap();
                let bf: zkabacus_crypto::revlock::RevocationLockBlindingFactor = wire::de(&lm[65..97]).unwrap();
                let mut rng = ScriptedRng::new(ctx.prng.gen(), book.clone());
                let _tok = match unrevoked.complete_payment(&mut rng, &pair, &bf) { Ok(t) => t, Err(_) => { ctx.violation("merchant refused the honest revocation", json!({"class": "honest-revocation-refused"})); return false; } };
                let u2 = match rng.scalars_in_log().first() { Some(u) => *u, None => return false };
                let dd = blind_sign_d(w, &u2, &run.d.st.c);
                let honest = match ReplyD::from_dlogs(&book, "honest", dd.0, dd.1) { Some(r) => r, None => return false };
                let zero_unlock = || -> Option<Obj> {
                    let (unrevoked, _) = merchant_allow(false)?;
                    let mut rng = ScriptedRng::new(7, book.clone());
                    rng.force_scalars(&[Scalar::zero()]);
                    unrevoked.complete_payment(&mut rng, &pair, &bf).ok().map(Obj::Token)
                };
                if h.reply_step(ctx, "unlock", honest, run.d.st.c, run.d.cl.c, &apply_unlock, Some(&zero_unlock)).is_none() { return false; }
                h.close_probe(ctx, h.ledger);
                // balances reported by the stage
                if let Some(s) = &h.stage {
                    let (c2, m2) = s.balances();
                    if (c2 as i128, m2 as i128) != h.ledger || (c2 as i128 + m2 as i128) != (a.cb as i128 + a.mb as i128) {
                        ctx.violation(&format!("customer reports balances ({}, {}), the ledger says ({}, {})", c2, m2, h.ledger.0, h.ledger.1), json!({"class": "balances-off-ledger"}));
                    }
                }
            }
        }
    }
    !h.failed
}
