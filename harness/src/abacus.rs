//! zkAbacus lab: a merchant / customer configuration with known discrete logs, establish-proof atoms,
//! transcript checks through the challenge recorder.
use crate::dl::{hex_list, hex_s, Book};
use crate::gen::*;
use crate::kit::*;
use crate::model::Tok;
use crate::rangelab::*;
use crate::report::{Ctx, Real};
use crate::schnorr::*;
use crate::wire::{self, KpD};
use bls12_381::{G1Projective, Scalar};
use crypto::digest::Digest;
use crypto::sha3::Sha3;
use rand::Rng;
use serde_json::json;
use zkabacus_crypto::{customer, merchant, ChannelId, Context, CustomerBalance, EstablishProof, MerchantBalance, CLOSE_SCALAR};
use zkchannels_crypto::pedersen::PedersenParameters;
use zkchannels_crypto::pointcheval_sanders::KeyPair;
use zkchannels_crypto::proofs::verif_hooks;

pub struct World {
    pub kpd: KpD,
    pub rev_h: Scalar,
    pub rev_g: Scalar,
    pub rpd: RpD,
    pub merchant: merchant::Config,
    pub customer: customer::Config,
}

pub fn world(ctx: &mut Ctx, generated_key: bool) -> Option<World> {
    let (_kp, kpd): (KeyPair<5>, KpD) = if generated_key { gen_keypair::<5>(ctx, &[])? } else { des_keypair::<5>(ctx) };
    let rev_h = nonzero(&mut ctx.prng);
    let rev_g = nonzero(&mut ctx.prng);
    let (_rp, rpd, _, _) = rp_decoded(ctx);
    world_from(ctx, &kpd, rev_h, rev_g, &rpd)
}

/// a configuration assembled from given parts (to vary one component at a time)
pub fn world_from(ctx: &mut Ctx, kpd: &KpD, rev_h: Scalar, rev_g: Scalar, rpd: &RpD) -> Option<World> {
    let book = ctx.book.clone();
    let kp: KeyPair<5> = wire::keypair::<5>(&book, kpd).ok()?;
    let rev: PedersenParameters<G1Projective, 1> = wire::ped_g1::<1>(&book, &rev_h, &[rev_g]);
    let rp: zkabacus_crypto::RangeConstraintParameters = wire::de(&rpd.bytes(&book)).ok()?;
    let merchant = merchant::Config::from_parts(kp, rev, rp);
    let (pk, rev2, rp2) = merchant.extract_customer_config_parts();
    let customer = customer::Config::from_parts(pk, rev2, rp2);
    Some(World { kpd: kpd.clone(), rev_h, rev_g, rpd: rpd.clone(), merchant, customer })
}

/// SHA3-256 with the independent implementation (rust-crypto)
/// a context for a replay file: in full up to 4 KiB, otherwise its length, SHA3-256 and first 64 bytes
/// (long contexts are random bytes drawn from the case's PRNG, so the replay regenerates them)
pub fn ctx_hex(bytes: &[u8]) -> String {
    if bytes.len() <= 4096 { hex::encode(bytes) } else { format!("<{} bytes, sha3-256 {}, starting {}>", bytes.len(), hex::encode(sha3_256(bytes)), hex::encode(&bytes[..64])) }
}

pub fn sha3_256(bytes: &[u8]) -> [u8; 32] {
    let mut h = Sha3::sha3_256();
    h.input(bytes);
    let mut d = [0u8; 32];
    h.result(&mut d);
    d
}

/// The model's `ChallengeBuilder::finish` after hashing (`rawScalar`: four little-endian limbs, reduced mod q, computed by the
/// Lean driver) applied to an independently computed SHA3-256 digest must be the challenge the real code derived.
pub fn model_finish_matches(ctx: &mut Ctx, bytes: &[u8], c: &Scalar) -> bool {
    let d = sha3_256(bytes);
    let a = ctx.expect(&format!("raw-scalar {}", hex::encode(d)), &[Real::S(*c)]);
    // the whole of `finish` in the model: the driver hashes the recorded bytes itself (Model/Sha3.lean) and derives the
    // challenge; its digest must be the independent implementation's, its challenge the one the real code derived
    let b = bytes.len() > MODEL_HASH_LIMIT || ctx.expect(&format!("sha3-challenge {}", hex_or_dash(bytes)), &[Real::X(d.to_vec()), Real::S(*c)]);
    a && b
}

/// hashed strings longer than this are not sent to the model's SHA3 (the line protocol carries them as hex)
pub const MODEL_HASH_LIMIT: usize = 1 << 16;

pub fn hex_or_dash(bytes: &[u8]) -> String { if bytes.is_empty() { "-".into() } else { hex::encode(bytes) } }

/// `digest` is what the real code produced as the SHA3-256 of `bytes`: the model's executed hash must produce it too
pub fn model_hash_matches(ctx: &mut Ctx, bytes: &[u8], digest: &[u8]) -> bool {
    bytes.len() > MODEL_HASH_LIMIT || ctx.expect(&format!("sha3 {}", hex_or_dash(bytes)), &[Real::X(digest.to_vec())])
}

pub fn sha3_challenge(bytes: &[u8]) -> Scalar {
    let mut h = Sha3::sha3_256();
    h.input(bytes);
    let mut d = [0u8; 32];
    h.result(&mut d);
    let l = |i: usize| u64::from_le_bytes({ let mut a = [0u8; 8]; a.copy_from_slice(&d[i * 8..i * 8 + 8]); a });
    Scalar::from_raw([l(0), l(1), l(2), l(3)])
}

/// encode the model's transcript answer (`l:n` then `v:kind value` pairs) to bytes
pub fn transcript_bytes(book: &Book, toks: &[Tok]) -> Option<Vec<u8>> {
    let mut out = vec![];
    let mut i = 1;
    while i + 1 < toks.len() + 1 && i < toks.len() {
        let kind = if let Tok::V(k) = &toks[i] { k.clone() } else { return None };
        match (kind.as_str(), toks.get(i + 1)?) {
            ("s", Tok::S(x)) => out.extend(wire::enc_s(x)),
            ("g1", Tok::S(x)) => out.extend(wire::enc_g1(book, x)),
            ("g2", Tok::S(x)) => out.extend(wire::enc_g2(book, x)),
            ("x", Tok::X(b)) => out.extend(b.clone()),
            _ => return None,
        }
        i += 2;
    }
    Some(out)
}

/// the model's transcript answer as one byte string per item
pub fn transcript_items(book: &Book, toks: &[Tok]) -> Option<Vec<Vec<u8>>> {
    let mut out = vec![];
    let mut i = 1;
    while i < toks.len() {
        let kind = if let Tok::V(k) = &toks[i] { k.clone() } else { return None };
        out.push(match (kind.as_str(), toks.get(i + 1)?) {
            ("s", Tok::S(x)) => wire::enc_s(x),
            ("g1", Tok::S(x)) => wire::enc_g1(book, x),
            ("g2", Tok::S(x)) => wire::enc_g2(book, x),
            ("x", Tok::X(b)) => b.clone(),
            _ => return None,
        });
        i += 2;
    }
    Some(out)
}

pub enum TMatch {
    /// the recorded bytes are the model's items in the model's order
    Exact,
    /// … the same items in another order (`L[j]` = model index of the j-th item hashed); the binding
    /// theorems hold for every such layout (`*_transcript_binds_layout`), `layoutCovers` evaluated by the driver
    Layout(Vec<usize>),
    /// the recorded bytes parse as model items, but these items are not hashed at all
    Omits(Vec<usize>),
    No,
}

/// Compare what the implementation hashed with the model's transcript, up to the order of the items.
pub fn match_transcript(ctx: &mut Ctx, toks: &[Tok], recorded: &[u8]) -> TMatch {
    let book = ctx.book.clone();
    let items = match transcript_items(&book, toks) { Some(i) => i, None => return TMatch::No };
    if items.concat() == recorded { return TMatch::Exact; }
    // locate each hashed item by value (longest match first; equal encodings are interchangeable)
    let mut used = vec![false; items.len()];
    let mut layout: Vec<usize> = vec![];
    let mut o = 0usize;
    while o < recorded.len() {
        let mut best: Option<usize> = None;
        for (k, e) in items.iter().enumerate() {
            if used[k] || e.is_empty() || !recorded[o..].starts_with(e) { continue; }
            if best.map(|b| items[b].len() < e.len()).unwrap_or(true) { best = Some(k); }
        }
        match best {
            Some(k) => { used[k] = true; layout.push(k); o += items[k].len(); }
            None => return TMatch::No,
        }
    }
    for (k, e) in items.iter().enumerate() { if !used[k] && e.is_empty() { used[k] = true; layout.push(k); } }
    let l: Vec<String> = layout.iter().map(|i| format!("{:x}", i)).collect();
    let ans = ctx.model.raw(&format!("layout-covers {} {:x}", if l.is_empty() { "-".to_string() } else { l.join(",") }, items.len()));
    ctx.evals += 1;
    if ans == "b:1" {
        let note = "the implementation hashes the model's items in another order than the model's default; binding holds for every covering layout (C12.*_transcript_binds_layout), coverage evaluated by the driver".to_string();
        if !ctx.notes.contains(&note) { ctx.notes.push(note); }
        TMatch::Layout(layout)
    } else {
        TMatch::Omits((0..items.len()).filter(|k| !used[*k]).collect())
    }
}

/// atoms of an establish proof (scalars and discrete logs)
#[derive(Clone, Debug)]
pub struct EstD {
    pub k0: Scalar,
    pub k1: Scalar,
    pub k3: Scalar,
    pub k4: Scalar,
    pub st: CpD,
    pub cl: CpD,
}
impl EstD {
    pub fn args(&self) -> String {
        format!("{} {} {} {} {} {}", hex_s(&self.k0), hex_s(&self.k1), hex_s(&self.k3), hex_s(&self.k4), self.st.args(), self.cl.args())
    }
    pub fn bytes(&self, book: &Book) -> Vec<u8> {
        wire::cat(vec![wire::enc_s(&self.k0), wire::enc_s(&self.k1), wire::enc_s(&self.k3), wire::enc_s(&self.k4),
            self.st.bytes::<G1Projective>(book), self.cl.bytes::<G1Projective>(book)])
    }
    pub fn real(&self, book: &Book) -> Result<EstablishProof, String> {
        wire::de(&self.bytes(book))
    }
}

#[derive(Clone, Debug)]
pub struct Agreed {
    pub cid: ChannelId,
    pub cid_s: Scalar,
    pub cb: u64,
    pub mb: u64,
    pub ctx_bytes: Vec<u8>,
}
impl Agreed {
    pub fn random(ctx: &mut Ctx) -> Agreed {
        let mut b = [0u8; 32];
        ctx.prng.fill(&mut b);
        let cid: ChannelId = wire::de(&b).expect("channel id");
        let pick = |ctx: &mut Ctx| -> u64 {
            match ctx.prng.gen_range(0..7) {
                0 => 0, 1 => i64::MAX as u64, 2 => 1,
                // base-128 digit patterns of the range proof: a power of 128 (digits 1,0,..,0) and its neighbours
                3 => { let k = ctx.prng.gen_range(1..9u32); let p = 1u64 << (7 * k); match ctx.prng.gen_range(0..4) { 0 => p, 1 => p - 1, 2 => p + ctx.prng.gen_range(1..128u64), _ => p + (ctx.prng.gen::<u64>() % (p >> 7).max(1)) } }
                _ => ctx.prng.gen::<u64>() >> ctx.prng.gen_range(1..64),
            }
        };
        // context lengths: short, around the SHA3-256 rate and around buffer sizes a streaming hasher might use
        let n = match ctx.prng.gen_range(0..8) { 0 => 32, 1 => 64, 2 => [135usize, 136, 137, 1000, 4095, 4096, 4097, 8191, 8192, 8193, 10000, 16384, 16385, 65537][ctx.prng.gen_range(0..14)], _ => ctx.prng.gen_range(0..40) };
        let ctx_bytes: Vec<u8> = (0..n).map(|_| ctx.prng.gen()).collect();
        let cid_s = cid_scalar(&b);
        // the real conversion must be the 256-bit little-endian integer reduced mod q (independent evaluation)
        ctx.evals += 1;
        if zkabacus_crypto::verif_hooks::channel_id_to_scalar(cid) != cid_s {
            ctx.count("channel-id-scalar:MISMATCH");
            ctx.disagreements.push(json!({"kind": "model-vs-implementation", "case": ctx.case_id, "what": "ChannelId::to_scalar is not the 256-bit little-endian integer of the id reduced mod q", "channel_id": hex::encode(b)}));
        }
        Agreed { cid, cid_s, cb: pick(ctx), mb: pick(ctx), ctx_bytes }
    }
    /// the same agreed values under a long context (lengths around the buffer sizes a streaming hasher might use)
    pub fn with_long_context(mut self, ctx: &mut Ctx) -> Agreed {
        let n = [4096usize, 8191, 8192, 8193, 10000, 16384, 16385, 65537, 1 << 20, (1 << 20) + 1, (2 << 20) + 5][ctx.prng.gen_range(0..11)];
        self.ctx_bytes = (0..n).map(|_| ctx.prng.gen()).collect();
        self
    }
    /// the same agreed values under another channel id (given as bytes)
    pub fn with_cid(&self, b: &[u8; 32]) -> Agreed {
        let mut a = self.clone();
        a.cid = wire::de(b).expect("channel id");
        a.cid_s = cid_scalar(b);
        a
    }
    pub fn context(&self) -> Context {
        Context::new(&self.ctx_bytes)
    }
    pub fn pub_args(&self) -> String {
        format!("{} {} {} {}", hex_s(&CLOSE_SCALAR), hex_s(&self.cid_s), hex_s(&Scalar::from(self.cb)), hex_s(&Scalar::from(self.mb)))
    }
}

/// the customer's side of establish, with everything the harness can learn about it
/// `ChannelId::to_scalar` evaluated independently: the id's 32 bytes as a little-endian integer, mod q
pub fn cid_scalar(b: &[u8; 32]) -> Scalar {
    let limb = |i: usize| { let mut a = [0u8; 8]; a.copy_from_slice(&b[8 * i..8 * i + 8]); u64::from_le_bytes(a) };
    Scalar::from_raw([limb(0), limb(1), limb(2), limb(3)])
}

/// channel ids close to `b`: single-bit flips at both ends, in the middle, and in the two top bits
pub fn near_cids(b: &[u8; 32]) -> Vec<(&'static str, [u8; 32])> {
    let mut v = vec![];
    for (what, byte, mask) in [("bit-0", 0usize, 1u8), ("bit-127", 15, 0x80), ("bit-248", 31, 0x01), ("bit-253", 31, 0x20), ("bit-254", 31, 0x40), ("bit-255", 31, 0x80), ("bits-254-255", 31, 0xc0)] {
        let mut x = *b;
        x[byte] ^= mask;
        if cid_scalar(&x) != cid_scalar(b) { v.push((what, x)); }
    }
    v
}

pub struct EstRun {
    pub requested: customer::Requested,
    pub proof: EstablishProof,
    pub d: EstD,
    pub ms: Vec<Scalar>,
    pub bf_s: Scalar,
    pub tbf_s: Scalar,
    pub ts_s: Vec<Scalar>,
    pub bf_c: Scalar,
    pub tbf_c: Scalar,
    pub t1_c: Scalar,
    pub c: Scalar,
}

fn s_at(b: &[u8], o: usize) -> Option<Scalar> {
    let mut a = [0u8; 32];
    a.copy_from_slice(&b[o..o + 32]);
    Scalar::from_bytes(&a).into()
}

/// state message [cid, nonce, lock, cb, mb] from serialized `State` bytes (145)
pub fn state_message(b: &[u8]) -> Option<Vec<Scalar>> {
    let mut cidb = [0u8; 32];
    cidb.copy_from_slice(&b[0..32]);
    let nonce = s_at(b, 32)?;
    let lock = s_at(b, 64)?;
    let mb = u64::from_le_bytes({ let mut a = [0u8; 8]; a.copy_from_slice(&b[129..137]); a });
    let cb = u64::from_le_bytes({ let mut a = [0u8; 8]; a.copy_from_slice(&b[137..145]); a });
    // the channel id's scalar evaluated independently of the code under test
    Some(vec![cid_scalar(&cidb), nonce, lock, Scalar::from(cb), Scalar::from(mb)])
}

/// `Requested::new` for the given (possibly "hidden") values; the customer's proof is compared atom
/// by atom with the model's prover on the recovered witness, and its hashed transcript with the model's.
pub fn establish_customer(ctx: &mut Ctx, w: &World, hidden: &Agreed) -> Option<EstRun> {
    let book = ctx.book.clone();
    let mut rng = crate::rng::ScriptedRng::new(ctx.prng.gen(), book.clone());
    if !ctx.forced_next.is_empty() { let f = std::mem::take(&mut ctx.forced_next); rng.force_scalars(&f); }
    let _ = verif_hooks::drain_challenges();
    let (mbal, cbal) = (MerchantBalance::try_new(hidden.mb).ok()?, CustomerBalance::try_new(hidden.cb).ok()?);
    let context = hidden.context();
    let (requested, proof) = match std::panic::catch_unwind(std::panic::AssertUnwindSafe(|| customer::Requested::new(&mut rng, &w.customer, hidden.cid, mbal, cbal, &context))) {
        Ok(x) => x,
        Err(_) => {
            ctx.violation("the customer's Requested::new panics", json!({"class": "customer-establish-panics", "cb": hidden.cb, "mb": hidden.mb, "scalar_draws": rng.scalars_in_log().iter().map(hex_s).collect::<Vec<_>>()}));
            return None;
        }
    };
    let rec = verif_hooks::drain_challenges();
    if rec.len() != 1 {
        ctx.broken(&format!("Requested::new derived {} challenges, expected 1", rec.len()));
        return None;
    }
    let (tbytes, c) = (rec[0].0.clone(), rec[0].1);
    if sha3_challenge(&tbytes) != c {
        ctx.violation("recorded challenge is not from_raw(SHA3-256(recorded bytes))", json!({"class": "challenge-not-sha3"}));
    }
    let _ = model_finish_matches(ctx, &tbytes, &c);
    let rb = wire::ser(&requested);
    if rb.len() != 209 {
        ctx.broken("Requested is not 209 bytes");
        return None;
    }
    let ms = state_message(&rb[..145])?;
    let bf_c = s_at(&rb, 145)?;
    let bf_s = s_at(&rb, 177)?;
    let pb = wire::ser(&proof);
    if pb.len() != 720 {
        ctx.broken("EstablishProof is not 720 bytes");
        return None;
    }
    let (k0, k1, k3, k4) = (s_at(&pb, 0)?, s_at(&pb, 32)?, s_at(&pb, 64)?, s_at(&pb, 96)?);
    let (s_cb, s_tb, s_zbf, s_zs) = split_cp(&pb[128..424], 48, 5)?;
    let (c_cb, c_tb, c_zbf, c_zs) = split_cp(&pb[424..720], 48, 5)?;
    let ts_s: Vec<Scalar> = s_zs.iter().zip(ms.iter()).map(|(z, m)| z - c * m).collect();
    let tbf_s = s_zbf - c * bf_s;
    let tbf_c = c_zbf - c * bf_c;
    let t1_c = c_zs[1] - c * CLOSE_SCALAR;
    let op = format!("est-prove {} {} {} {} {} {} {} {} {} {}", pk_args(&w.kpd.pk), hex_s(&CLOSE_SCALAR), hex_list(&ms),
        hex_s(&bf_s), hex_s(&tbf_s), hex_list(&ts_s), hex_s(&bf_c), hex_s(&tbf_c), hex_s(&t1_c), hex_s(&c));
    use crate::props::c09::HG;
    let mut reals = vec![Real::S(k0), Real::S(k1), Real::S(k3), Real::S(k4), G1Projective::real_bytes(&s_cb)?, G1Projective::real_bytes(&s_tb)?, Real::S(s_zbf)];
    reals.extend(real_list_s(&s_zs));
    reals.extend(vec![G1Projective::real_bytes(&c_cb)?, G1Projective::real_bytes(&c_tb)?, Real::S(c_zbf)]);
    reals.extend(real_list_s(&c_zs));
    let (ok, toks) = ctx.expect_toks(&op, &reals);
    if !ok {
        return None;
    }
    let s = |i: usize| if let Tok::S(a) = &toks[i] { *a } else { Scalar::zero() };
    let d = EstD { k0, k1, k3, k4, st: CpD { c: s(4), t: s(5), zbf: s_zbf, zs: s_zs }, cl: CpD { c: s(13), t: s(14), zbf: c_zbf, zs: c_zs } };
    // the customer hashed exactly the model's transcript
    check_est_transcript(ctx, w, hidden, &d, &tbytes, "customer");
    Some(EstRun { requested, proof, d, ms, bf_s, tbf_s, ts_s, bf_c, tbf_c, t1_c, c })
}

/// recorded transcript bytes == encoding of the model's atom list for (agreed values, proof atoms)
pub fn check_est_transcript(ctx: &mut Ctx, w: &World, a: &Agreed, d: &EstD, recorded: &[u8], who: &str) -> bool {
    let book = ctx.book.clone();
    let digest = sha3_256(&a.ctx_bytes); // Context::new = SHA3-256 of the input, computed independently
    let _ = model_hash_matches(ctx, &a.ctx_bytes, &digest); // … and by the model's executed SHA3 (the real digest is located in the recorded bytes below)
    let op = format!("est-transcript {} {} {} {} 0", pk_args(&w.kpd.pk), a.pub_args(), d.args(), hex::encode(digest));
    let toks = ctx.ask(&op);
    ctx.evals += 1;
    match match_transcript(ctx, &toks, recorded) {
        TMatch::Exact => {
            ctx.count(&format!("transcript:{}:match", who));
            true
        }
        TMatch::Layout(_) => {
            ctx.count(&format!("transcript:{}:match-under-another-layout", who));
            true
        }
        TMatch::Omits(missing) => {
            ctx.count(&format!("transcript:{}:OMITS-ITEMS", who));
            ctx.disagreements.push(json!({"kind": "model-vs-implementation", "case": ctx.case_id, "what": format!("the establish transcript hashed by the {} omits item(s) {:?} of the model's transcript (not bound by the challenge)", who, missing), "op": op, "recorded": hex::encode(recorded)}));
            false
        }
        TMatch::No => {
            ctx.count(&format!("transcript:{}:MISMATCH", who));
            // is it the pinned (legacy) layout?
            let op = format!("est-transcript {} {} {} {} 1", pk_args(&w.kpd.pk), a.pub_args(), d.args(), hex::encode(digest));
            let toks = ctx.ask(&op);
            let legacy = transcript_bytes(&book, &toks).map(|b| b == recorded).unwrap_or(false);
            ctx.disagreements.push(json!({"kind": "model-vs-implementation", "case": ctx.case_id, "what": format!("establish transcript hashed by the {} differs from the model's{}", who, if legacy { " (it is the pinned layout without the revealed commitment scalars)" } else { "" }),
                "op": op, "recorded": hex::encode(recorded)}));
            false
        }
    }
}

pub struct InitOutcome {
    pub accepted: Option<(zkabacus_crypto::ClosingSignature, zkabacus_crypto::VerifiedBlindedState)>,
    pub challenge: Scalar,
    pub u: Option<Scalar>,
}

/// `merchant::Config::initialize` on proof atoms for the agreed values: real verdict vs the model's
/// `estVerifyWith` under the recorded challenge (+ transcript comparison).
pub fn initialize_check(ctx: &mut Ctx, w: &World, a: &Agreed, d: &EstD, expect: Option<bool>, what: &str) -> Option<InitOutcome> {
    let book = ctx.book.clone();
    let proof = match d.real(&book) {
        Ok(p) => p,
        Err(e) => { if expect.is_none() { ctx.count("initialize:proof-has-no-wire-encoding"); } else { ctx.broken(&format!("establish proof does not decode: {}", e)); } return None; }
    };
    let (mbal, cbal) = (MerchantBalance::try_new(a.mb).ok()?, CustomerBalance::try_new(a.cb).ok()?);
    let mut rng = crate::rng::ScriptedRng::new(ctx.prng.gen(), book.clone());
    let _ = verif_hooks::drain_challenges();
    let out = w.merchant.initialize(&mut rng, &a.cid, cbal, mbal, proof, &a.context());
    let rec = verif_hooks::drain_challenges();
    if rec.is_empty() && out.is_none() {
        // refused before any challenge was derived
        ctx.count(&format!("initialize:{}:refused-without-deriving-a-challenge", what));
        if expect == Some(true) {
            ctx.violation(
                &format!("initialize returned None on {} (without even deriving a challenge), expected Some", what),
                json!({"class": what, "agreed": {"cid": hex_s(&a.cid_s), "cb": a.cb, "mb": a.mb, "context": crate::abacus::ctx_hex(&a.ctx_bytes)}, "proof_bytes": hex::encode(d.bytes(&book)), "pk": pk_args(&w.kpd.pk)}),
            );
        }
        return None;
    }
    if rec.len() != 1 {
        ctx.broken(&format!("initialize derived {} challenges, expected 1", rec.len()));
        return None;
    }
    let (tbytes, c) = (rec[0].0.clone(), rec[0].1);
    if sha3_challenge(&tbytes) != c {
        ctx.violation("recorded challenge is not from_raw(SHA3-256(recorded bytes))", json!({"class": "challenge-not-sha3"}));
    }
    let _ = model_finish_matches(ctx, &tbytes, &c);
    let _ = check_est_transcript(ctx, w, a, d, &tbytes, "merchant");
    let op = format!("est-verify {} {} {} {}", pk_args(&w.kpd.pk), a.pub_args(), d.args(), hex_s(&c));
    let reals = match &out {
        Some(_) => vec![Real::V("some".into()), Real::G1(book.g1a(d.st.c)), Real::G1(book.g1a(d.cl.c))],
        None => vec![Real::V("none".into())],
    };
    let (agree, mtoks) = ctx.expect_toks(&op, &reals);
    if !agree && out.is_some() && matches!(mtoks.first(), Some(Tok::V(v)) if v == "none") {
        // the model's acceptance predicate is the one the soundness theorems are about: a proof the real verifier
        // accepts although the model rejects it is a concrete failing input
        ctx.violation(&format!("initialize accepts an establish proof ({}) that the model's acceptance predicate rejects", what),
            json!({"class": format!("accepted-although-the-model-rejects:{}", what), "agreed": {"cid": hex_s(&a.cid_s), "cb": a.cb, "mb": a.mb, "context": crate::abacus::ctx_hex(&a.ctx_bytes)}, "proof_bytes": hex::encode(d.bytes(&book)), "pk": pk_args(&w.kpd.pk)}));
    }
    ctx.count(&format!("initialize:{}:{}", what, out.is_some()));
    if let Some(e) = expect {
        if out.is_some() != e {
            ctx.violation(
                &format!("initialize returned {} on {}, expected {}", if out.is_some() { "Some" } else { "None" }, what, if e { "Some" } else { "None" }),
                json!({"class": what, "agreed": {"cid": hex_s(&a.cid_s), "cb": a.cb, "mb": a.mb, "context": crate::abacus::ctx_hex(&a.ctx_bytes)}, "proof_bytes": hex::encode(d.bytes(&book)), "pk": pk_args(&w.kpd.pk)}),
            );
        }
    }
    let u = rng.scalars_in_log().first().cloned();
    Some(InitOutcome { accepted: out, challenge: c, u })
}
