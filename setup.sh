#!/bin/sh
# Build the framework from files on disk only (offline): Lean model + theorems + driver, Rust harness.
set -e
cd "$(dirname "$0")"
export CARGO_NET_OFFLINE=true
mkdir -p .build evidence replays
[ -f harness/Cargo.lock ] || cp /repo/Cargo.lock harness/Cargo.lock
(cd lean && lake build ZkVerif ZkVerif.Audit driver $(ls ZkVerif/Props/*.lean | sed 's#/#.#g; s#\.lean$##'))
(cd harness && cargo build --release --offline && cargo build --profile deploy --offline)
[ -f harness/probes/Cargo.lock ] || cp harness/Cargo.lock harness/probes/Cargo.lock
(cd harness/probes && cargo check --offline --target-dir ../../.build/probes --bin allow_control)
echo setup-ok
