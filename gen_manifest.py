#!/usr/bin/env python3
"""Regenerates MANIFEST.json from checklib/props.py (claimed properties) — run after adding a property."""
import json, sys, os
sys.path.insert(0, os.path.join(os.path.dirname(os.path.abspath(__file__)), "checklib"))
from props import PROPS, COMMON_TRUSTED, NOT_APPLICABLE
ids = [json.loads(l)["id"] for l in open(os.path.join(os.path.dirname(os.path.abspath(__file__)), "properties.jsonl"))]
checks = []
for pid in ids:
    if pid not in PROPS:
        continue
    c = PROPS[pid]
    checks.append({
        "property_id": pid,
        "quick_cmd": f"./check {pid} quick",
        "thorough_cmd": f"./check {pid} thorough",
        "evidence_file": f"/verif/evidence/{pid}.json",
        "replay_cmd_template": f"./check {pid} --replay {{path}}",
        "engine": "lean4-model+correspondence",
        "level_claimed": {"category": "proof", "text": c["level_text"], "design_ref": c.get("design_ref", "DESIGN.md §3 " + pid)},
        "level_note": c["level_note"],
        "technique": c.get("technique", "Lean 4 theorems about a hand-written executable model + checked model/implementation correspondence (exponent-space differential run)"),
    })
na = [{"property_id": p, "reason": NOT_APPLICABLE.get(p, "not yet claimed: the model, theorems and correspondence for this property are not built yet (work in progress, see DESIGN.md §7)")} for p in ids if p not in PROPS]
m = {
    "version": 1,
    "setup_cmd": "cd /verif && ./setup.sh",
    "hooks": {
        "guard": "cargo feature verif-hooks (zkchannels-crypto, zkabacus-crypto)",
        "enable": "the harness crate /verif/harness depends on /repo's two crates by path with features = [\"verif-hooks\"]",
        "baseline_off_cmd": "cd /repo && cargo test --workspace --no-fail-fast --offline",
        "source_commits": ["006010c", "ed35f96"],
        "add_only": True,
    },
    "engines": [{"name": "lean4-model+correspondence", "path": "/verif/check", "serves_properties": [c["property_id"] for c in checks],
                 "kind_free_text": "Lean 4 (Mathlib) theorems about a hand-written polymorphic executable model (/verif/lean); Rust harness (/verif/harness) runs /repo's code and the compiled model on the same inputs in exponent space and diffs them; per-property search for concrete failing inputs"}],
    "checks": checks,
    "not_applicable": na,
    "notes": "See DESIGN.md. Known findings / fixed defects: known_findings.json.",
}
json.dump(m, open(os.path.join(os.path.dirname(os.path.abspath(__file__)), "MANIFEST.json"), "w"), indent=1)
print("claimed:", [c["property_id"] for c in checks])
